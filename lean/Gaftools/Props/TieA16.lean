import Gaftools.Model.Order
import Gaftools.Gen.OrderRun
import Gaftools.Proofs.OrderFilesLemmas2
/-!
# Tie A for `order_gfa.run_order_gfa` (the chromosome loop), `name_comps` and `count_sn` (C06, C07, C18)

`Gen/OrderRun.lean` is regenerated from `gaftools/cli/order_gfa.py` on every run, statement by statement:

* `count_sn` — the body of `for n in comp` (`countSnBody`: the membership test, the `continue`, the increment of the
  `defaultdict(int)`), folded over the component;
* `name_comps` — the body of `for tag, count in counts.items()` (`voteBody`: the comparison `most_freq <= count` and the tuple
  assignment) and the body of `for comp in components` (`nameBody`: the call of `count_sn`, `most_freq = 0`, the vote, the
  `ValueError`, the dict assignment) — with `current_tag` carried from one component to the next as in the source;
* `run_order_gfa` — the body of `for chromosome in chromosome_order` (`chromBody`: the lookup `components[chromosome]`, the call of
  `decompose_and_order` with the running `bo`, the truth test `if scaffold_nodes:`, `bo = next_bo`, the two file names and the
  two lists they are appended to, the CSV header, the loop over `sorted(component_nodes)`, `write_gfa` with its four keyword
  arguments, `close`) and the body of that inner loop (`nodeBody`: `graph.nodes[node_name]`, `node_order[node_name]`, the two tag
  assignments, the colour, `SN` / `SO` or `NA`, the CSV row). Everything the loop does to the outside world is an `Event` appended
  to a log in program order; `write_gfa` is logged with the graph as it is at the call.

Theorems (the model functions are those of `Model/Order.lean`, about which C06*, C07b/c, C18* are proved):

* `countSn_gen`, `nameComps_gen` — `count_sn` is the table `majoritySN` votes on; `name_comps` = `Order.nameComps`, under `AllNamed`
  (every component has a non-empty majority tag). Outside `AllNamed` the source and the model DIFFER: `finding_untagged_component`.
* `compOfName_gen` — `components[chromosome]` = `Order.compOfName`.
* `nodeBody_gen`, `foldlM_nodeBody` — per node: the tags of `Order.tagNode`, the row of `Order.csvRow`.
* `chromBody_ok` / `_skipped` / `_crash` — one chromosome, from any state.
* `runLoop_gen` — the whole loop = `Order.runOrder` (the final state is a function of `runOrder`'s result, `stateOf`);
  `runLoop_files` — running index and the two file lists.
* `orderRun_gen`, `orderRun_tags_all` — the same for a real run (`Order.orderRun`), with the Python-misbehaviour hypotheses of
  `runLoop_gen` discharged from the theorems about `decompose` / `allComponents`.
-/
namespace Gaftools.TieA.OrderRun
open Gaftools.Gfa Gaftools.Algo Gaftools.View Gaftools.Order
open Gaftools.Gen.OrderRun

/-! ## `count_sn` -/

/-- the dictionary `count_sn` returns, as the model writes it: the SN values in first-seen order, each with its frequency -/
def snCounts (tags : List String) : List (String × Nat) :=
  tags.eraseDups.map (fun t => (t, (tags.filter (· == t)).length))

theorem snCounts_snoc (l : List String) (x : String) : snCounts (l ++ [x]) = dictAdd (snCounts l) x 1 := by
  unfold snCounts dictAdd
  rw [List.eraseDups_append]
  by_cases hx : x ∈ l
  · have h1 : ([x].removeAll l) = [] := by simp [List.removeAll, hx]
    have hany : ((l.eraseDups.map (fun t => (t, (l.filter (· == t)).length))).any (·.1 == x)) = true := by
      rw [List.any_eq_true]
      exact ⟨(x, (l.filter (· == x)).length), List.mem_map.mpr ⟨x, List.mem_eraseDups.mpr hx, rfl⟩, by simp⟩
    rw [h1, hany]
    simp only [List.eraseDups_nil, List.append_nil, if_true, List.map_map]
    apply List.map_congr_left
    intro t _
    simp only [Function.comp, List.filter_append, List.length_append]
    by_cases htx : t = x
    · subst htx; simp
    · have : (x == t) = false := by simpa using (Ne.symm htx)
      simp [htx, this]
  · have h1 : ([x].removeAll l) = [x] := by simp [List.removeAll, hx]
    have hany : ((l.eraseDups.map (fun t => (t, (l.filter (· == t)).length))).any (·.1 == x)) = false := by
      rw [List.any_eq_false]
      intro p hp
      obtain ⟨t, ht, rfl⟩ := List.mem_map.mp hp
      have : t ≠ x := fun h => hx (h ▸ List.mem_eraseDups.mp ht)
      simpa using this
    rw [h1, hany]
    simp only [List.eraseDups_cons, List.filter_nil, List.eraseDups_nil, List.map_append, List.map_cons, List.map_nil,
      Bool.false_eq_true, if_false]
    congr 1
    · apply List.map_congr_left
      intro t ht
      have : t ≠ x := fun h => hx (h ▸ List.mem_eraseDups.mp ht)
      have : (x == t) = false := by simpa using (Ne.symm this)
      simp [List.filter_append, this]
    · have : l.filter (· == x) = [] := by
        rw [List.filter_eq_nil_iff]
        intro a ha h
        exact hx ((beq_iff_eq.mp h) ▸ ha)
      simp [List.filter_append, this]

theorem foldl_countSnBody (sn : V → Option String) (comp : List V) :
    comp.foldl (countSnBody sn) [] = snCounts (comp.filterMap sn) := by
  suffices h : ∀ (r : List V), r.reverse.foldl (countSnBody sn) [] = snCounts (r.reverse.filterMap sn) by
    simpa using h comp.reverse
  intro r
  induction r with
  | nil => rfl
  | cons n r ih =>
    rw [List.reverse_cons, List.foldl_append, List.foldl_cons, List.foldl_nil, ih, List.filterMap_append]
    unfold countSnBody
    cases hs : sn n with
    | none => simp [hs]
    | some t =>
      simp only [Option.isSome_some, Bool.not_true, Bool.false_eq_true, if_false, Option.getD_some,
        List.filterMap_cons, hs, List.filterMap_nil]
      exact (snCounts_snoc _ t).symm

/-- `count_sn`, translated, is the dictionary the model's `majoritySN` votes on -/
theorem countSn_gen (sn : V → Option String) (comp : List V) :
    countSn sn comp = ((comp.filterMap sn).eraseDups).map (fun t => (t, ((comp.filterMap sn).filter (· == t)).length)) := by
  first
  | rfl
  | exact foldl_countSnBody sn comp

/-! ## `name_comps` -/

/-- the step of the model's vote -/
def modelVote (best : Option String × Nat) (tc : String × Nat) : Option String × Nat :=
  if best.2 ≤ tc.2 then (some tc.1, tc.2) else best

theorem majoritySN_eq (sn : V → Option String) (comp : List V) :
    majoritySN sn comp = ((snCounts (comp.filterMap sn)).foldl modelVote (none, 0)).1 := rfl

/-- the vote loop, started with the tag left over from the previous component, against the model's vote (which starts from
    "no tag"): the loop's tag is the model's winner, or the left-over tag when nothing was counted -/
theorem foldl_voteBody (counts : List (String × Nat)) (best : Option String × Nat) (cur : String) :
    counts.foldl voteBody (best.1.getD cur, best.2) =
      ((counts.foldl modelVote best).1.getD cur, (counts.foldl modelVote best).2) := by
  induction counts generalizing best with
  | nil => rfl
  | cons tc rest ih =>
    rw [List.foldl_cons, List.foldl_cons]
    have : voteBody (best.1.getD cur, best.2) tc = ((modelVote best tc).1.getD cur, (modelVote best tc).2) := by
      unfold voteBody modelVote
      by_cases h : best.2 ≤ tc.2 <;> simp [h]
    rw [this]
    exact ih _

/-- one iteration of `for comp in components`: the component is filed under the model's majority tag — or, when the component
    carries no SN tag at all, under the tag left over from the previous iteration; an empty tag raises -/
theorem nameBody_gen (sn : V → Option String) (d : List (String × List V)) (cur : String) (comp : List V) :
    nameBody sn (d, cur) comp =
      (if ((majoritySN sn comp).getD cur == "") = true then .error "ValueError"
       else .ok (dictPut d ((majoritySN sn comp).getD cur) comp, (majoritySN sn comp).getD cur)) := by
  have h := foldl_voteBody (countSn sn comp) (none, 0) cur
  simp only [Option.getD_none] at h
  unfold nameBody
  simp only [h]
  rw [countSn_gen]
  rfl

/-- every component has a majority tag and it is not the empty string. Where this fails the Python misbehaves: a component
    without any SN tag is filed under the name of the component before it (replacing that one), or raises `ValueError` when it
    is the first; a component whose majority tag is `""` raises `ValueError` -/
def AllNamed (sn : V → Option String) (comps : List (List V)) : Prop :=
  ∀ c ∈ comps, ∃ name, majoritySN sn c = some name ∧ name ≠ ""

theorem foldlM_nameBody (sn : V → Option String) (comps : List (List V)) (h : AllNamed sn comps)
    (d : List (String × List V)) (cur : String) :
    ∃ cur', comps.foldlM (nameBody sn) (d, cur) =
      .ok (comps.foldl (fun acc c => match majoritySN sn c with
        | some name => (acc.filter (·.1 != name)) ++ [(name, c)]
        | none => acc) d, cur') := by
  induction comps generalizing d cur with
  | nil => exact ⟨cur, rfl⟩
  | cons c cs ih =>
    obtain ⟨name, hm, hne⟩ := h c List.mem_cons_self
    have hne' : (name == "") = false := by simpa using hne
    rw [List.foldlM_cons, nameBody_gen, hm]
    simp only [Option.getD_some, hne', Bool.false_eq_true, if_false, List.foldl_cons, hm]
    exact ih (fun c' hc' => h c' (List.mem_cons_of_mem _ hc')) (dictPut d name c) name

/-- `name_comps`, translated, returns the model's dictionary of named components -/
theorem nameComps_gen (sn : V → Option String) (comps : List (List V)) (h : AllNamed sn comps) :
    Gen.OrderRun.nameComps sn comps = .ok (Order.nameComps sn comps) := by
  obtain ⟨cur', hf⟩ := foldlM_nameBody sn comps h [] ""
  unfold Gen.OrderRun.nameComps Order.nameComps
  simp only [hf]
  rfl

/-- `AllNamed` from the data: every component has a node with an SN tag, and no SN tag is empty -/
theorem allNamed_of_tags (sn : V → Option String) (comps : List (List V))
    (h1 : ∀ c ∈ comps, ∃ v ∈ c, (sn v).isSome) (h2 : ∀ c ∈ comps, ∀ v ∈ c, sn v ≠ some "") : AllNamed sn comps := by
  intro c hc
  have key : ∀ (counts : List (String × Nat)) (best : Option String × Nat),
      (best.1.isSome ∨ (best.2 = 0 ∧ counts ≠ [])) → (∀ t, best.1 = some t → t ≠ "") → (∀ p ∈ counts, p.1 ≠ "") →
      ∃ name, (counts.foldl modelVote best).1 = some name ∧ name ≠ "" := by
    intro counts
    induction counts with
    | nil =>
      intro best hb hbest _
      rcases hb with hb | hb
      · obtain ⟨t, ht⟩ := Option.isSome_iff_exists.mp hb
        exact ⟨t, ht, hbest t ht⟩
      · exact absurd rfl hb.2
    | cons p ps ih =>
      intro best hb hbest hp
      rw [List.foldl_cons]
      apply ih
      · left
        unfold modelVote
        split
        · rfl
        · rename_i hlt
          rcases hb with hb | hb
          · exact hb
          · exact absurd (by omega) hlt
      · intro t ht
        unfold modelVote at ht
        split at ht
        · simp only [Option.some.injEq] at ht
          exact ht ▸ hp p List.mem_cons_self
        · exact hbest t ht
      · exact fun q hq => hp q (List.mem_cons_of_mem _ hq)
  rw [majoritySN_eq]
  obtain ⟨v, hv, hsome⟩ := h1 c hc
  obtain ⟨t, ht⟩ := Option.isSome_iff_exists.mp hsome
  have hmem : t ∈ c.filterMap sn := List.mem_filterMap.mpr ⟨v, hv, ht⟩
  apply key
  · right
    refine ⟨rfl, ?_⟩
    unfold snCounts
    intro hnil
    have : t ∈ (c.filterMap sn).eraseDups := List.mem_eraseDups.mpr hmem
    rw [List.map_eq_nil_iff] at hnil
    rw [hnil] at this
    cases this
  · intro t' ht'; cases ht'
  · intro p hp
    unfold snCounts at hp
    obtain ⟨t', ht', rfl⟩ := List.mem_map.mp hp
    have := List.mem_eraseDups.mp ht'
    obtain ⟨v', hv', hs'⟩ := List.mem_filterMap.mp this
    intro he
    exact h2 c hc v' hv' (by rw [hs']; simp only at he; rw [he])

/-- FINDING (model ≠ source outside `AllNamed`). Two one-node components, the first with `SN:Z:chr1`, the second without any SN
    tag: `name_comps` files the SECOND component under `chr1` (its `current_tag` is not reset per component) and the first one is
    lost; the model's `nameComps` keeps the first and ignores the second. -/
theorem finding_untagged_component :
    let sn : V → Option String := fun v => if v == "a" then some "chr1" else none
    Gen.OrderRun.nameComps sn [["a"], ["b"]] = .ok [("chr1", ["b"])] ∧ Order.nameComps sn [["a"], ["b"]] = [("chr1", ["a"])] :=
  ⟨rfl, rfl⟩

/-- `components[chromosome]` of the loop is the model's `compOfName` (which reads a missing key as the empty component; the
    request is validated against the key set before the loop, so the loop never sees one) -/
theorem compOfName_gen (t : GfaFile) (lm : Bool) (c : String) :
    compOfName t lm c =
      (dictGet (Order.nameComps (snOf t) (allComponents (Graph.nbFun (readGraph t lm)) (Graph.ids (readGraph t lm)))) c).getD [] := rfl

/-! ## the loop over the nodes of a written chromosome -/

theorem lookup_eq_find (v : V) (l : List (V × Int × Int)) : lookup v l = (l.find? (·.1 == v)).map (·.2) := by
  induction l with
  | nil => rfl
  | cons x xs ih =>
    obtain ⟨k, val⟩ := x
    simp only [lookup, List.find?_cons]
    by_cases h : v = k
    · subst h; simp
    · have h1 : (v == k) = false := by simpa using h
      have h2 : (k == v) = false := by simpa using (Ne.symm h)
      simp [h1, h2, ih]

theorem find_map_tagSet (d : List Tag) (t : Tag) (name : String) (ht : (t.name == name) = false) :
    (d.map (fun e => if e.name == t.name then t else e)).find? (·.name == name) = d.find? (·.name == name) := by
  induction d with
  | nil => rfl
  | cons e es ih =>
    simp only [List.map_cons, List.find?_cons]
    by_cases he : (e.name == t.name) = true
    · have : e.name = t.name := by simpa using he
      have he' : (e.name == name) = false := by rw [this]; exact ht
      simp only [he, if_true, ht, he']
      exact ih
    · simp only [he, Bool.false_eq_true, if_false]
      cases (e.name == name) with
      | true => rfl
      | false => exact ih

theorem tagVal_tagSet_ne (d : List Tag) (t : Tag) (name : String) (h : t.name ≠ name) :
    tagVal (tagSet d t) name = tagVal d name := by
  have ht : (t.name == name) = false := by simpa using h
  unfold tagVal tagSet
  congr 1
  split
  · exact find_map_tagSet d t name ht
  · simp [List.find?_append, ht]

/-- the node as it is once the loop has passed it (`P` = the nodes passed so far) -/
def mark (P : List V) (tags : List (V × Int × Int)) (n : Node) : Node :=
  if P.contains n.id then Gaftools.Proofs.OrderFiles.retag tags n else n

def markGraph (g : Graph) (P : List V) (tags : List (V × Int × Int)) : Graph := { g with nodes := g.nodes.map (mark P tags) }

theorem mark_id (P : List V) (tags : List (V × Int × Int)) (n : Node) : (mark P tags n).id = n.id := by
  unfold mark; split <;> simp

theorem find_markGraph (g : Graph) (P : List V) (tags : List (V × Int × Int)) (v : V) :
    (markGraph g P tags).find v = (g.find v).map (mark P tags) := by
  unfold Graph.find markGraph
  simp only
  rw [List.find?_map]
  congr 2
  funext n
  simp only [Function.comp, mark_id]

theorem find_id {g : Graph} {v : V} {n : Node} (h : g.find v = some n) : n.id = v := by
  unfold Graph.find at h
  have := List.find?_some h
  simpa using this

/-- the CSV row and the two tags of one node, as the model has them -/
theorem nodeBody_gen (g : Graph) (P : List V) (c : String) (tags : List (V × Int × Int)) (aps inside : List V) (file : String)
    (log : List Event) (v : V) (hP : v ∉ P) (hg : (g.find v).isSome) (ht : v ∈ tags.map (·.1)) :
    ∃ row, csvRow g ⟨c, tags, aps, inside⟩ v = some row ∧
      nodeBody tags aps inside file (markGraph g P tags, log) v =
        .ok (markGraph g (P ++ [v]) tags, log ++ [Event.write file row]) := by
  obtain ⟨n, hn⟩ := Option.isSome_iff_exists.mp hg
  have hid := find_id hn
  have hfx : ∃ x, tags.find? (·.1 == v) = some x := by
    rw [List.mem_map] at ht
    obtain ⟨x, hx, hxv⟩ := ht
    cases hf : tags.find? (·.1 == v) with
    | some y => exact ⟨y, rfl⟩
    | none =>
      rw [List.find?_eq_none] at hf
      exact absurd (by simp [hxv]) (hf x hx)
  obtain ⟨x, hx⟩ := hfx
  have hPc : P.contains v = false := by simpa using hP
  have hfind : (markGraph g P tags).find v = some n := by
    rw [find_markGraph, hn]
    simp only [Option.map_some, mark, hid, hPc, Bool.false_eq_true, if_false]
  refine ⟨[v, if aps.contains v then "orange" else if inside.contains v then "blue" else "gray",
      (tagVal n.tags "SN").getD "NA", (tagVal n.tags "SO").getD "NA", toString x.2.1, toString x.2.2],
    by unfold csvRow; simp only [hx, hn], ?_⟩
  unfold nodeBody
  simp only [hfind, lookup_eq_find, hx, Option.map_some]
  have hsn : ∀ (a b : Tag) (name : String), a.name ≠ name → b.name ≠ name →
      (if (tagVal (tagSet (tagSet n.tags a) b) name).isSome = true then (tagVal (tagSet (tagSet n.tags a) b) name).getD "" else "NA") =
        (tagVal n.tags name).getD "NA" := by
    intro a b name ha hb
    rw [tagVal_tagSet_ne _ _ _ hb, tagVal_tagSet_ne _ _ _ ha]
    cases tagVal n.tags name <;> rfl
  rw [hsn _ _ "SN" (by simp) (by simp), hsn _ _ "SO" (by simp) (by simp)]
  congr 2
  -- the graph
  unfold setTag markGraph
  simp only [List.map_map]
  congr 1
  apply List.map_congr_left
  intro m _
  simp only [Function.comp]
  by_cases hm : m.id = v
  · have hmc : P.contains m.id = false := by rw [hm]; exact hPc
    have hmc2 : (P ++ [v]).contains m.id = true := by simp [hm]
    have hx' : tags.find? (·.1 == m.id) = some x := by rw [hm]; exact hx
    have e1 : mark P tags m = m := by simp only [mark, hmc, Bool.false_eq_true, if_false]
    have e2 : mark (P ++ [v]) tags m = tagNode m x.2.1 x.2.2 := by
      simp only [mark, hmc2, if_true, Gaftools.Proofs.OrderFiles.retag, hx']
    rw [e1, e2]
    simp only [hm, beq_self_eq_true, if_true, tagNode]
  · have hmv : (m.id == v) = false := by simpa using hm
    have hmc : (P ++ [v]).contains m.id = P.contains m.id := by
      simp [hm]
    have e1 : mark (P ++ [v]) tags m = mark P tags m := by simp only [mark, hmc]
    rw [e1]
    simp only [mark_id, hmv, Bool.false_eq_true, if_false]

/-- the whole loop over `sorted(component_nodes)`: every node of the list gets its two tags, one CSV row each in that order -/
theorem foldlM_nodeBody (g : Graph) (c : String) (tags : List (V × Int × Int)) (aps inside : List V) (file : String)
    (L : List V) (hnd : L.Nodup) (hg : ∀ v ∈ L, (g.find v).isSome) (ht : ∀ v ∈ L, v ∈ tags.map (·.1)) :
    ∀ (P : List V) (log : List Event), (∀ v ∈ L, v ∉ P) →
      L.foldlM (nodeBody tags aps inside file) (markGraph g P tags, log) =
        .ok (markGraph g (P ++ L) tags, log ++ (L.filterMap (csvRow g ⟨c, tags, aps, inside⟩)).map (Event.write file)) := by
  induction L with
  | nil => intro P log _; simp only [List.append_nil, List.filterMap_nil, List.map_nil]; rfl
  | cons v vs ih =>
    intro P log hP
    rw [List.nodup_cons] at hnd
    obtain ⟨row, hrow, hstep⟩ := nodeBody_gen g P c tags aps inside file log v (hP v List.mem_cons_self)
      (hg v List.mem_cons_self) (ht v List.mem_cons_self)
    rw [List.foldlM_cons, hstep]
    change List.foldlM (nodeBody tags aps inside file) (markGraph g (P ++ [v]) tags, log ++ [Event.write file row]) vs = _
    have := ih hnd.2 (fun u hu => hg u (List.mem_cons_of_mem _ hu)) (fun u hu => ht u (List.mem_cons_of_mem _ hu))
      (P ++ [v]) (log ++ [Event.write file row]) (by
        intro u hu hmem
        rcases List.mem_append.mp hmem with h | h
        · exact hP u (List.mem_cons_of_mem _ hu) h
        · simp only [List.mem_singleton] at h
          exact hnd.1 (h ▸ hu))
    simp only [List.filterMap_cons, hrow, List.map_cons]
    simpa [List.append_assoc] using this

/-! ## one chromosome -/

/-- what `decompose_and_order(graph, component, name, bo)` returns, from the model's offset-free outcome: the chain positions are
    shifted by `bo`, the next free BO is `bo` + the length of the chain; a skipped chromosome is the all-`None` tuple, a crash
    is an exception -/
def daoOf (o : Outcome) (bo : Int) : Except String (Option Dao) :=
  match o with
  | .ok l => .ok (some ⟨l.aps, l.inside, l.order.map (fun (v, k, no) => (v, bo + (k : Int), (no : Int))), bo + (l.len : Int), (l.nBubbles : Int)⟩)
  | .skipped _ => .ok none
  | .crash w => .error w

/-- the two file names of a chromosome -/
def gfaName (env : Env) (c : String) : String := env.outdir ++ env.sep ++ env.stemDot ++ "-" ++ c ++ ".gfa"
def csvName (env : Env) (c : String) : String := env.outdir ++ env.sep ++ env.stemCut ++ "-" ++ c ++ ".csv"

/-- the entries of `node_order` the loop over `sorted(component_nodes)` uses: those of the component's nodes -/
def compTags (comp : List V) (tags : List (V × Int × Int)) : List (V × Int × Int) := tags.filter (fun x => comp.contains x.1)

/-- what the model says one written chromosome does to the outside world: the CSV is opened, the rows of `orderCsv` are written
    to it (header first), the GFA of the component is written from the graph with the tags set, the CSV is closed -/
def chromEvents (env : Env) (g : Graph) (w : Written) (comp : List V) : List Event :=
  Event.openW (csvName env w.name) :: (orderCsv g w comp).map (Event.write (csvName env w.name)) ++
    [Event.writeGfa (gfaName env w.name) (tagNodes g (compTags comp w.tags)) comp false true, Event.close (csvName env w.name)]

/-- … and to the variables of the loop (all but `bo`) -/
def writtenStep (env : Env) (st : RunSt) (w : Written) : RunSt :=
  { graph := tagNodes st.graph (compTags ((dictGet env.components w.name).getD []) w.tags),
    bo := st.bo,
    out_gfa := st.out_gfa ++ [gfaName env w.name],
    out_csv := st.out_csv ++ [csvName env w.name],
    log := st.log ++ chromEvents env st.graph w ((dictGet env.components w.name).getD []) }

theorem markGraph_nil (g : Graph) (tags : List (V × Int × Int)) : markGraph g [] tags = g := by
  unfold markGraph
  have : g.nodes.map (mark [] tags) = g.nodes := by
    conv => rhs; rw [← List.map_id g.nodes]
    apply List.map_congr_left
    intro n _
    simp [mark]
  rw [this]

theorem markGraph_sorted (g : Graph) (comp : List V) (tags : List (V × Int × Int)) :
    markGraph g (sortStrings comp) tags = tagNodes g (compTags comp tags) := by
  rw [Gaftools.Proofs.OrderFiles.tagNodes_eq]
  unfold markGraph
  congr 1
  apply List.map_congr_left
  intro n _
  unfold mark Gaftools.Proofs.OrderFiles.retag compTags
  rw [List.find?_filter]
  by_cases hc : n.id ∈ comp
  · have h1 : (sortStrings comp).contains n.id = true := by
      simpa using (Gaftools.Proofs.Bicc2.mem_sortStrings.mpr hc)
    have h2 : tags.find? (fun a => decide (comp.contains a.1 = true ∧ (a.1 == n.id) = true)) = tags.find? (·.1 == n.id) := by
      congr 1
      funext a
      by_cases ha : a.1 = n.id
      · simp [ha, hc]
      · simp [ha]
    rw [h1, h2]
    rfl
  · have h1 : (sortStrings comp).contains n.id = false := by
      have : n.id ∉ sortStrings comp := fun h => hc (Gaftools.Proofs.Bicc2.mem_sortStrings.mp h)
      simpa using this
    have h2 : tags.find? (fun a => decide (comp.contains a.1 = true ∧ (a.1 == n.id) = true)) = none := by
      rw [List.find?_eq_none]
      intro a _
      by_cases ha : a.1 = n.id
      · simp [ha, hc]
      · simp [ha]
    rw [h1, h2]
    rfl

theorem keys_shift (order : List (V × Nat × Nat)) (bo : Int) :
    (order.map (fun (v, k, no) => (v, bo + (k : Int), (no : Int)))).map (·.1) = order.map (·.1) := by
  rw [List.map_map]
  rfl

/-- a chromosome `decompose_and_order` could order: `bo` advances to the value returned, the two file names are appended, and
    the outside world sees exactly `chromEvents` -/
theorem chromBody_ok (dec : String → Outcome) (env : Env) (st : RunSt) (c : String) (comp : List V) (l : Local)
    (hdao : ∀ g comp c bo, dictGet env.components c = some comp → env.dao g comp c bo = daoOf (dec c) bo)
    (hkey : dictGet env.components c = some comp) (hdec : dec c = .ok l) (hne : l.aps ≠ []) (hnd : comp.Nodup)
    (hcov : ∀ v ∈ comp, (st.graph.find v).isSome ∧ v ∈ l.order.map (·.1)) :
    chromBody env st c =
      .ok { writtenStep env st ⟨c, l.order.map (fun (v, k, no) => (v, st.bo + (k : Int), (no : Int))), l.aps, l.inside⟩ with
            bo := st.bo + (l.len : Int) } := by
  have hemp : l.aps.isEmpty = false := by
    cases h : l.aps with
    | nil => exact absurd h hne
    | cons a b => rfl
  have hL : (sortStrings comp).Nodup := (Gaftools.C06.sortStrings_perm comp).nodup_iff.mpr hnd
  have hfold := foldlM_nodeBody st.graph c (l.order.map (fun (v, k, no) => (v, st.bo + (k : Int), (no : Int)))) l.aps l.inside
    (csvName env c) (sortStrings comp) hL
    (fun v hv => (hcov v (Gaftools.Proofs.Bicc2.mem_sortStrings.mp hv)).1)
    (fun v hv => by rw [keys_shift]; exact (hcov v (Gaftools.Proofs.Bicc2.mem_sortStrings.mp hv)).2)
    [] (st.log ++ [Event.openW (csvName env c)] ++ [Event.write (csvName env c) ["Name", "Color", "SN", "SO", "BO", "NO"]])
    (fun _ _ h => by cases h)
  rw [markGraph_nil, List.nil_append, markGraph_sorted] at hfold
  unfold chromBody
  simp only [hkey, hdao _ _ _ _ hkey, hdec, daoOf, hemp, Bool.not_false, if_true]
  unfold csvName at hfold
  simp only [hfold]
  unfold writtenStep chromEvents orderCsv csvHeader gfaName csvName
  simp only [hkey, Option.getD_some, List.map_cons, List.append_assoc, List.cons_append, List.nil_append]

/-- a chromosome that is reported and skipped: nothing changes, nothing is written -/
theorem chromBody_skipped (dec : String → Outcome) (env : Env) (st : RunSt) (c : String) (comp : List V) (w : Skip)
    (hdao : ∀ g comp c bo, dictGet env.components c = some comp → env.dao g comp c bo = daoOf (dec c) bo)
    (hkey : dictGet env.components c = some comp) (hdec : dec c = .skipped w) :
    chromBody env st c = .ok st := by
  unfold chromBody
  simp only [hkey, hdao _ _ _ _ hkey, hdec, daoOf]

theorem chromBody_crash (dec : String → Outcome) (env : Env) (st : RunSt) (c : String) (comp : List V) (w : String)
    (hdao : ∀ g comp c bo, dictGet env.components c = some comp → env.dao g comp c bo = daoOf (dec c) bo)
    (hkey : dictGet env.components c = some comp) (hdec : dec c = .crash w) :
    chromBody env st c = .error w := by
  unfold chromBody
  simp only [hkey, hdao _ _ _ _ hkey, hdec, daoOf]

/-! ## the whole loop -/

/-- the variables of the loop after it has written `r.1` and reached the running index `r.2` -/
def stateOf (env : Env) (s0 : RunSt) (r : List Written × Int) : RunSt :=
  { r.1.foldl (writtenStep env) s0 with bo := r.2 }

theorem isSome_find_tagNodes (g : Graph) (tags : List (V × Int × Int)) (v : V) :
    ((tagNodes g tags).find v).isSome = (g.find v).isSome := by
  rw [Gaftools.Proofs.OrderFiles.find_tagNodes, Option.isSome_map]

theorem isSome_find_steps (env : Env) (ws : List Written) (s0 : RunSt) (v : V) :
    ((ws.foldl (writtenStep env) s0).graph.find v).isSome = (s0.graph.find v).isSome := by
  induction ws generalizing s0 with
  | nil => rfl
  | cons w ws ih =>
    rw [List.foldl_cons, ih]
    exact isSome_find_tagNodes _ _ v

/-- the translated loop from any point of the run: it does what the model's loop (`C18.go` = `runOrder` from an arbitrary
    accumulator) does -/
theorem runLoop_go (dec : String → Outcome) (env : Env) (s0 : RunSt) (order : List String)
    (hdao : ∀ g comp c bo, dictGet env.components c = some comp → env.dao g comp c bo = daoOf (dec c) bo)
    (hkey : ∀ c ∈ order, (dictGet env.components c).isSome)
    (hnd : ∀ c ∈ order, ∀ comp, dictGet env.components c = some comp → comp.Nodup)
    (hcov : ∀ c ∈ order, ∀ l comp, dec c = .ok l → dictGet env.components c = some comp →
      ∀ v ∈ comp, (s0.graph.find v).isSome ∧ v ∈ l.order.map (·.1))
    (hne : ∀ c ∈ order, ∀ l, dec c = .ok l → l.aps ≠ []) (acc : List Written × Int) :
    runLoop env (stateOf env s0 acc) order = (Gaftools.C18.go dec acc order).map (stateOf env s0) := by
  induction order generalizing acc with
  | nil => rfl
  | cons c cs ih =>
    obtain ⟨comp, hcomp⟩ := Option.isSome_iff_exists.mp (hkey c List.mem_cons_self)
    have ih' := ih (fun c' h => hkey c' (List.mem_cons_of_mem _ h)) (fun c' h => hnd c' (List.mem_cons_of_mem _ h))
      (fun c' h => hcov c' (List.mem_cons_of_mem _ h)) (fun c' h => hne c' (List.mem_cons_of_mem _ h))
    unfold runLoop at ih' ⊢
    rw [List.foldlM_cons]
    cases hdec : dec c with
    | ok l =>
      have hcov' : ∀ v ∈ comp, ((stateOf env s0 acc).graph.find v).isSome ∧ v ∈ l.order.map (·.1) := by
        intro v hv
        have := hcov c List.mem_cons_self l comp hdec hcomp v hv
        exact ⟨by rw [show (stateOf env s0 acc).graph = (acc.1.foldl (writtenStep env) s0).graph from rfl, isSome_find_steps]; exact this.1,
          this.2⟩
      rw [chromBody_ok dec env _ c comp l hdao hcomp hdec (hne c List.mem_cons_self l hdec)
        (hnd c List.mem_cons_self comp hcomp) hcov', Gaftools.C18.go_cons_ok dec acc c cs l hdec]
      have hst : ({ writtenStep env (stateOf env s0 acc)
            ⟨c, l.order.map (fun (v, k, no) => (v, (stateOf env s0 acc).bo + (k : Int), (no : Int))), l.aps, l.inside⟩ with
            bo := (stateOf env s0 acc).bo + (l.len : Int) } : RunSt) =
          stateOf env s0 (acc.1 ++ [⟨c, l.order.map (fun (v, k, no) => (v, acc.2 + (k : Int), (no : Int))), l.aps, l.inside⟩],
            acc.2 + (l.len : Int)) := by
        simp only [stateOf, writtenStep, List.foldl_append, List.foldl_cons, List.foldl_nil]
      rw [hst]
      exact ih' _
    | skipped w =>
      rw [chromBody_skipped dec env _ c comp w hdao hcomp hdec, Gaftools.C18.go_cons_skipped dec acc c cs w hdec]
      exact ih' acc
    | crash w =>
      rw [chromBody_crash dec env _ c comp w hdao hcomp hdec, Gaftools.C18.go_cons_crash dec acc c cs w hdec]
      rfl

/-- MAIN: the translated loop of `run_order_gfa`, started with `bo = 0`, empty lists and the graph as read, ends in the state the
    model's `runOrder` prescribes: same running index, the files of exactly the chromosomes `runOrder` writes, in that order, the
    graph carrying their tags, the events of `chromEvents` for each; it raises exactly when the model reports a crash.

    Hypotheses (each is a place where the Python raises or where a Lean list fails to stand for the Python object):
    * `hdao`  — `decompose_and_order`, called for a requested name with the component filed under it, returns what the model's
                offset-free outcome says, shifted by the `bo` it is given (the correspondence of `Order.decompose`; it reads
                neither BO nor NO, so the graph argument is immaterial);
    * `hkey`  — every requested name is a key of `components` (else `components[chromosome]` raises KeyError; the request is
                validated against the keys before the loop);
    * `hnd`   — a component is a set: its list has no duplicates;
    * `hcov`  — every node of the component is a node of the graph and a key of `node_order` (else `graph.nodes[node_name]` /
                `node_order[node_name]` raise KeyError);
    * `hne`   — a chain that could be ordered has an articulation point (`if scaffold_nodes:` is a truth test: an empty set
                would be skipped like `None`); proved for `Order.decompose` below (`decompose_aps_ne`). -/
theorem runLoop_gen (dec : String → Outcome) (env : Env) (g0 : Graph) (order : List String)
    (hdao : ∀ g comp c bo, dictGet env.components c = some comp → env.dao g comp c bo = daoOf (dec c) bo)
    (hkey : ∀ c ∈ order, (dictGet env.components c).isSome)
    (hnd : ∀ c ∈ order, ∀ comp, dictGet env.components c = some comp → comp.Nodup)
    (hcov : ∀ c ∈ order, ∀ l comp, dec c = .ok l → dictGet env.components c = some comp →
      ∀ v ∈ comp, (g0.find v).isSome ∧ v ∈ l.order.map (·.1))
    (hne : ∀ c ∈ order, ∀ l, dec c = .ok l → l.aps ≠ []) :
    runLoop env (initSt g0) order = (runOrder dec order).map (stateOf env (initSt g0)) := by
  rw [Gaftools.C18.runOrder_eq_go]
  exact runLoop_go dec env (initSt g0) order hdao hkey hnd hcov hne ([], 0)

/-! ## what the final state says about files, names and the running index -/

theorem out_steps (env : Env) (ws : List Written) (s0 : RunSt) :
    (ws.foldl (writtenStep env) s0).out_gfa = s0.out_gfa ++ ws.map (fun w => gfaName env w.name) ∧
    (ws.foldl (writtenStep env) s0).out_csv = s0.out_csv ++ ws.map (fun w => csvName env w.name) := by
  induction ws generalizing s0 with
  | nil => simp
  | cons w ws ih =>
    rw [List.foldl_cons]
    obtain ⟨h1, h2⟩ := ih (writtenStep env s0 w)
    rw [h1, h2]
    simp [writtenStep]

/-- the running index after the loop is the model's; `out_gfa` / `out_csv` (the files the `-complete` step concatenates and
    removes) name exactly the chromosomes the model writes, in request order; nothing for a skipped chromosome -/
theorem runLoop_files (dec : String → Outcome) (env : Env) (g0 : Graph) (order : List String)
    (hdao : ∀ g comp c bo, dictGet env.components c = some comp → env.dao g comp c bo = daoOf (dec c) bo)
    (hkey : ∀ c ∈ order, (dictGet env.components c).isSome)
    (hnd : ∀ c ∈ order, ∀ comp, dictGet env.components c = some comp → comp.Nodup)
    (hcov : ∀ c ∈ order, ∀ l comp, dec c = .ok l → dictGet env.components c = some comp →
      ∀ v ∈ comp, (g0.find v).isSome ∧ v ∈ l.order.map (·.1))
    (hne : ∀ c ∈ order, ∀ l, dec c = .ok l → l.aps ≠ []) :
    (runLoop env (initSt g0) order).map (fun st => (st.bo, st.out_gfa, st.out_csv)) =
      (runOrder dec order).map (fun r => (r.2, r.1.map (fun w => gfaName env w.name), r.1.map (fun w => csvName env w.name))) := by
  rw [runLoop_gen dec env g0 order hdao hkey hnd hcov hne]
  cases runOrder dec order with
  | error e => rfl
  | ok r =>
    obtain ⟨h1, h2⟩ := out_steps env r.1 (initSt g0)
    simp only [Except.map, stateOf, h1, h2]
    rfl

/-- when `node_order` has no key outside the component (true of `decompose_and_order`, see `orderRun_gen`), the tags the loop sets
    are all of `w.tags`: the graph after a chromosome is the model's `tagNodes` -/
theorem compTags_all (comp : List V) (tags : List (V × Int × Int)) (h : ∀ x ∈ tags, x.1 ∈ comp) : compTags comp tags = tags := by
  unfold compTags
  rw [List.filter_eq_self]
  intro x hx
  simpa using h x hx

/-- SN / SO of a node are not touched by the tagging of any chromosome: the CSV rows may be read off the graph as it was read -/
theorem csvRow_tagNodes (g : Graph) (tags : List (V × Int × Int)) (w : Written) (v : V) :
    csvRow (tagNodes g tags) w v = csvRow g w v := by
  unfold csvRow
  rw [Gaftools.Proofs.OrderFiles.find_tagNodes]
  cases hf : w.tags.find? (·.1 == v) with
  | none => rfl
  | some x =>
    cases hg : g.find v with
    | none => rfl
    | some n =>
      simp only [Option.map_some]
      have : ∀ name, name ≠ "BO" → name ≠ "NO" → tagVal (Gaftools.Proofs.OrderFiles.retag tags n).tags name = tagVal n.tags name := by
        intro name h1 h2
        unfold Gaftools.Proofs.OrderFiles.retag
        split
        · unfold tagNode
          simp only
          rw [tagVal_tagSet_ne _ _ _ (by simpa using (Ne.symm h2)), tagVal_tagSet_ne _ _ _ (by simpa using (Ne.symm h1))]
        · rfl
      rw [this "SN" (by decide) (by decide), this "SO" (by decide) (by decide)]

theorem orderCsv_steps (env : Env) (ws : List Written) (s0 : RunSt) (w : Written) (comp : List V) :
    orderCsv (ws.foldl (writtenStep env) s0).graph w comp = orderCsv s0.graph w comp := by
  induction ws generalizing s0 with
  | nil => rfl
  | cons w' ws ih =>
    rw [List.foldl_cons, ih]
    unfold orderCsv
    congr 1
    apply Gaftools.Proofs.OrderRun.filterMap_congr'
    intro v _
    exact csvRow_tagNodes _ _ w v

/-- the two constants of the CSV layer -/
theorem csvFormat_gen : Gen.OrderRun.csvSep = "," ∧ Gen.OrderRun.csvEnd = "\n" := ⟨rfl, rfl⟩

/-! ## `if scaffold_nodes:` is never false for a chain `Order.decompose` accepts -/

theorem foldlM_inv {σ α ε : Type} (f : σ → α → Except ε σ) (P : σ → Prop)
    (h : ∀ s a s', P s → f s a = .ok s' → P s') : ∀ (l : List α) (s s' : σ), P s → l.foldlM f s = .ok s' → P s' := by
  intro l
  induction l with
  | nil => intro s s' hs h'; cases h'; exact hs
  | cons a l ih =>
    intro s s' hs h'
    rw [List.foldlM_cons] at h'
    cases hf : f s a with
    | error e => rw [hf] at h'; cases h'
    | ok s1 => rw [hf] at h'; exact ih s1 s' (h s a s1 hs hf) h'

theorem buildScaffold_noAps (blocks : List (List V)) (s : Scaffold) (h : buildScaffold blocks [] = .ok s) : s.edges = [] := by
  unfold buildScaffold at h
  refine foldlM_inv _ (fun s => s.edges = []) ?_ blocks _ s rfl h
  intro s bc s' hs hf
  have e1 : bc.filter (fun v => ([] : List V).contains v) = [] := by simp
  simp only [e1] at hf
  split at hf
  · simp at hf
  · injection hf with hf
    subst hf
    simpa using hs

theorem finishScaffold_noEdges (s : Scaffold) (aps : List V) (so : V → Option Int) (sn : V → Option String) (l : Local)
    (h : s.edges = []) : finishScaffold s aps so sn ≠ .ok l := by
  have hn : ∀ e, s.nbrs e = [] := by
    intro e
    unfold Scaffold.nbrs
    rw [h]
    rfl
  have hfl : ∀ (l : List Elt), l.filter (fun _ => false) = [] := by
    intro l
    induction l with
    | nil => rfl
    | cons a l ih => simp
  unfold finishScaffold
  simp [hn, hfl]

theorem finishScaffold_aps (s : Scaffold) (aps : List V) (so : V → Option Int) (sn : V → Option String) (l : Local)
    (h : finishScaffold s aps so sn = .ok l) : l.aps = aps := by
  unfold finishScaffold at h
  simp only at h
  repeat' split at h
  all_goals (cases h; try rfl)

/-- the set of articulation points `decompose` returns with an accepted chain is never empty -/
theorem decompose_aps_ne (nb : V → List V) (comp : List V) (so : V → Option Int) (sn : V → Option String) (l : Local)
    (h : decompose nb comp so sn = .ok l) : l.aps ≠ [] := by
  by_cases hlen : comp.length = 1
  · match comp, hlen with
    | [v], _ =>
      simp only [decompose] at h
      injection h with h
      rw [← h]
      simp
  · obtain ⟨s, hb, hf⟩ := Gaftools.C06.decompose_ok_stages nb comp so sn l hlen h
    intro hnil
    have haps := finishScaffold_aps s _ so sn l hf
    rw [hnil] at haps
    rw [← haps] at hb hf
    exact finishScaffold_noEdges s [] so sn l (buildScaffold_noAps _ s hb) hf

/-! ## the loop of a real run: `Order.orderRun` -/

/-- the environment of `run_order_gfa` on the token file `t`: the components named by the model's `nameComps` (equal to the
    translated `name_comps` by `nameComps_gen`), `decompose_and_order` as the model's `decompose` of the component it is handed,
    shifted by the `bo` it is handed; the four strings are the pieces of the output file names -/
def envOf (t : GfaFile) (lm : Bool) (outdir sep stemDot stemCut : String) : Env :=
  { components := Order.nameComps (snOf t) (allComponents (Graph.nbFun (readGraph t lm)) (Graph.ids (readGraph t lm))),
    dao := fun _ comp _ bo => daoOf (decompose (Graph.nbFun (readGraph t lm)) comp (soOf t) (snOf t)) bo,
    outdir := outdir, sep := sep, stemDot := stemDot, stemCut := stemCut }

/-- what is known of a component filed under a name, and of the numbering `decompose` gives it -/
theorem comp_facts (t : GfaFile) (hids : (t.segs.map (·.id)).Nodup) (htab : ∀ s ∈ t.segs, '\t' ∉ s.id.toList) (lm : Bool)
    (c : String) (comp : List V)
    (hc : dictGet (Order.nameComps (snOf t) (allComponents (Graph.nbFun (readGraph t lm)) (Graph.ids (readGraph t lm)))) c = some comp) :
    compOfName t lm c = comp ∧ comp.Nodup ∧ (∀ v ∈ comp, ((readGraph t lm).find v).isSome) ∧
      ∀ l, decompose (Graph.nbFun (readGraph t lm)) comp (soOf t) (snOf t) = .ok l → ∀ v, v ∈ l.order.map (·.1) ↔ v ∈ comp := by
  have hname : compOfName t lm c = comp := by rw [compOfName_gen, hc]; rfl
  have hmem : comp ∈ allComponents (Graph.nbFun (readGraph t lm)) (Graph.ids (readGraph t lm)) := by
    unfold dictGet at hc
    cases hf : (Order.nameComps (snOf t) (allComponents (Graph.nbFun (readGraph t lm)) (Graph.ids (readGraph t lm)))).find? (·.1 == c) with
    | none => rw [hf] at hc; cases hc
    | some p =>
      rw [hf] at hc
      simp only [Option.map_some, Option.some.injEq] at hc
      rw [← hc]
      exact Gaftools.Proofs.OrderRun.nameComps_mem _ _ p (List.mem_of_find?_eq_some hf)
  have hU := Gaftools.C15.readGraph_undirected t hids lm
  have hidsEq : Graph.ids (readGraph t lm) = t.segs.map (·.id) := Gaftools.Proofs.Write.ids_readGraph t lm hids
  have hnd : (Graph.ids (readGraph t lm)).Nodup := by rw [hidsEq]; exact hids
  have hpart := Gaftools.C15.components_partition _ _ hU hnd
  obtain ⟨hne, hcnd, hsub, hcls⟩ := hpart.1 _ hmem
  refine ⟨hname, hcnd, ?_, ?_⟩
  · intro v hv
    have := hsub v hv
    unfold Graph.ids at this
    obtain ⟨n, hn, hnv⟩ := List.mem_map.mp this
    unfold Graph.find
    rw [List.find?_isSome]
    exact ⟨n, hn, by simp [hnv]⟩
  · intro l hdec
    have hclosed := Gaftools.Proofs.OrderRun.class_closed (Graph.nbFun (readGraph t lm)) comp hcls
    have hagree := Gaftools.Proofs.OrderRun.restrict_agree (Graph.nbFun (readGraph t lm)) comp
    have hu' := Gaftools.Proofs.OrderRun.restrict_undirected _ _ comp hU hclosed
    have hconn := Gaftools.Proofs.OrderRun.restrict_connected _ _ comp hU hcls
    have htab' : ∀ v ∈ comp, '\t' ∉ v.toList := by
      intro v hv
      have := hsub v hv
      rw [hidsEq, List.mem_map] at this
      obtain ⟨sg, hs, rfl⟩ := this
      exact htab sg hs
    have hdec' : decompose (Gaftools.Proofs.OrderRun.restrict (Graph.nbFun (readGraph t lm)) comp) comp (soOf t) (snOf t) = .ok l := by
      rw [Gaftools.C06.decompose_congr _ _ comp _ _ hne hclosed hagree]
      exact hdec
    exact (Gaftools.Proofs.OrderFiles.goodOrder_of_decompose _ comp (soOf t) (snOf t) l hu' hcnd hconn htab' hne hdec').mem

/-- MAIN for a real run. For a token file with distinct, tab-free segment names and a request of names `name_comps` found (what
    the validation before the loop enforces), the translated loop ends in the state prescribed by the model's `orderRun` — the
    function C06 / C07 / C18 are about — and raises exactly when `orderRun` reports a crash. No other hypothesis: the KeyErrors,
    the duplicate-freeness and the truth test of `runLoop_gen` are discharged from the theorems about `decompose` and
    `allComponents`. -/
theorem orderRun_gen (t : GfaFile) (hids : (t.segs.map (·.id)).Nodup) (htab : ∀ s ∈ t.segs, '\t' ∉ s.id.toList)
    (order : List String) (lm : Bool) (hreq : ∀ c ∈ order, c ∈ componentNames t lm) (outdir sep stemDot stemCut : String) :
    runLoop (envOf t lm outdir sep stemDot stemCut) (initSt (readGraph t lm)) order =
      (orderRun t order lm).map (stateOf (envOf t lm outdir sep stemDot stemCut) (initSt (readGraph t lm))) := by
  unfold orderRun
  apply runLoop_gen (fun c => decompose (Graph.nbFun (readGraph t lm)) (compOfName t lm c) (soOf t) (snOf t))
  · intro g comp c bo hc
    obtain ⟨hname, _⟩ := comp_facts t hids htab lm c comp hc
    simp only [envOf, hname]
  · intro c hc
    have := hreq c hc
    unfold componentNames at this
    obtain ⟨p, hp, hpc⟩ := List.mem_map.mp this
    unfold dictGet envOf
    simp only [Option.isSome_map]
    rw [List.find?_isSome]
    exact ⟨p, hp, by simp [hpc]⟩
  · intro c _ comp hc
    exact (comp_facts t hids htab lm c comp hc).2.1
  · intro c _ l comp hdec hc v hv
    obtain ⟨hname, _, hfind, hkeys⟩ := comp_facts t hids htab lm c comp hc
    simp only [hname] at hdec
    exact ⟨hfind v hv, (hkeys l hdec v).mpr hv⟩
  · intro c _ l hdec
    exact decompose_aps_ne _ _ _ _ l hdec

/-- … and in such a run `node_order` has exactly the component's nodes as keys, so the graph after a chromosome is the model's
    `tagNodes g w.tags` (the filter `compTags` of `writtenStep` / `chromEvents` is the identity) -/
theorem orderRun_tags_all (t : GfaFile) (hids : (t.segs.map (·.id)).Nodup) (htab : ∀ s ∈ t.segs, '\t' ∉ s.id.toList)
    (order : List String) (lm : Bool) (hreq : ∀ c ∈ order, c ∈ componentNames t lm) (ws : List Written) (next : Int)
    (h : orderRun t order lm = .ok (ws, next)) (outdir sep stemDot stemCut : String) :
    ∀ w ∈ ws, compTags ((dictGet (envOf t lm outdir sep stemDot stemCut).components w.name).getD []) w.tags = w.tags := by
  intro w hw
  have hgo : Gaftools.C18.go (fun c => decompose (Graph.nbFun (readGraph t lm)) (compOfName t lm c) (soOf t) (snOf t))
      ([], 0) order = .ok (ws, next) := h
  have hws := Gaftools.C18.go_written _ order _ _ hgo
  simp only [List.nil_append] at hws
  have hw' := hw
  rw [hws] at hw'
  obtain ⟨l, lo, _, hdec, htags, _⟩ := Gaftools.Proofs.OrderRun.outList_mem _ order 0 (Int.le_refl 0) w hw'
  have hnames := Gaftools.C18.written_names _ order (ws, next) h
  have hin : w.name ∈ order := by
    have : w.name ∈ ws.map (·.name) := List.mem_map.mpr ⟨w, hw, rfl⟩
    simp only at hnames
    rw [hnames] at this
    exact (List.mem_filter.mp this).1
  have hreq' := hreq _ hin
  unfold componentNames at hreq'
  obtain ⟨p, hp, hpc⟩ := List.mem_map.mp hreq'
  have hsome : (dictGet (envOf t lm outdir sep stemDot stemCut).components w.name).isSome := by
    unfold dictGet envOf
    simp only [Option.isSome_map]
    rw [List.find?_isSome]
    exact ⟨p, hp, by simp [hpc]⟩
  obtain ⟨comp, hcomp⟩ := Option.isSome_iff_exists.mp hsome
  obtain ⟨hname, _, _, hkeys⟩ := comp_facts t hids htab lm w.name comp hcomp
  rw [hcomp, Option.getD_some]
  apply compTags_all
  intro x hx
  simp only [hname] at hdec
  have hk := (hkeys l hdec x.1).mp (by
    rw [htags] at hx
    have : x.1 ∈ (l.order.map (fun (v, k, no) => (v, lo + (k : Int), (no : Int)))).map (·.1) := List.mem_map.mpr ⟨x, hx, rfl⟩
    rwa [keys_shift] at this)
  exact hk

end Gaftools.TieA.OrderRun
