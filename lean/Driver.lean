import Gaftools.Drv.Sort
import Gaftools.Drv.Gaf
import Gaftools.Drv.Gfa
import Gaftools.Drv.Realign
import Gaftools.Drv.Conv
import Gaftools.Drv.Order
import Gaftools.Drv.Bgzf
import Gaftools.Drv.GraphExtra
import Gaftools.Drv.TextLayer
import Gaftools.Drv.GfaText
import Gaftools.Drv.Cli
/-! The correspondence driver: one JSON object per line in, one per line out. -/
open Lean Gaftools.Drv

def dispatch (op : String) (j : Json) : Except String Json :=
  match op with
  | "sort.cmp" => Sort.opCmp j
  | "sort.process" => Sort.opProcess j
  | "sort.file" => Sort.opFile j
  | "sort.lines" => Sort.opLines j
  | "gaf.print_parse" => Gaf.opPrintParse j
  | "gaf.parse" => Gaf.opParse j
  | "phase.file" => Gaf.opPhase j
  | "stat.run" => Gaf.opStat j
  | "walk.extract" => Gfa.opExtract j
  | "graph.algos" => Graph.opAlgos j
  | "graph.history" => Graph.opHistory j
  | "realign.run" => Realign.opRun j
  | "realign.groups" => Realign.opGroups j
  | "realign.record" => RealignRec.opRecord j
  | "conv.file" => Conv.opFile j
  | "view.index" => View.opIndex j
  | "view.select" => View.opSelect j
  | "order.run" => Order.opRun j
  | "order.command" => Order.opCommand j
  | "bgzf.resolve" => Bgzf.opResolve j
  | "graph.extra" => GraphExtra.opExtra j
  | "findpath.run" => TextLayer.opRun j
  | "region.parse" => TextLayer.opRegion j
  | "text.spaces" => TextLayer.opSpaces j
  | "gfa.parsetext" => GfaText.opParseText j
  | "cli.parse" => Cli.opParse j
  | _ => throw s!"unknown op {op}"

partial def loop (h : IO.FS.Stream) (out : IO.FS.Stream) : IO Unit := do
  let line ← h.getLine
  if line.isEmpty then return ()
  let reply : Json := match Json.parse line with
    | .error e => obj [("driver_error", js s!"json: {e}")]
    | .ok j => match str j "op" with
      | .error e => obj [("driver_error", js e)]
      | .ok op => match dispatch op j with
        | .error e => obj [("driver_error", js e)]
        | .ok r => r
  out.putStrLn reply.compress
  loop h out

def main : IO Unit := do
  let out ← IO.getStdout
  loop (← IO.getStdin) out
  out.flush
